package main

import (
	"context"
	"database/sql"
	"encoding/json"
	"fmt"
	"os"
	"path/filepath"
	"strconv"
	"strings"
	"sync"
	"time"
	"unicode/utf8"

	_ "github.com/akrennmair/updog/driver"
	"github.com/akrennmair/updog/verifhook"
	"go.etcd.io/bbolt"
	gproto "google.golang.org/protobuf/proto"
)

// watchdog runs f with panic recovery and a timeout.
// watchdogScale stretches every watchdog: they exist to turn a real hang into a verdict, not to measure speed, so
// they are generous by default (a slow or heavily loaded machine must not produce "hang" verdicts).
var watchdogScale = func() time.Duration {
	if v, err := strconv.Atoi(os.Getenv("VERIF_WATCHDOG_SCALE")); err == nil && v > 0 {
		return time.Duration(v)
	}
	return 3
}()

func watchdog(d time.Duration, f func() string) string {
	d *= watchdogScale
	ch := make(chan string, 1)
	go func() {
		defer func() {
			if p := recover(); p != nil {
				ch <- fmt.Sprintf("panic: %v", p)
			}
		}()
		ch <- f()
	}()
	select {
	case s := <-ch:
		return s
	case <-time.After(d):
		return "hang"
	}
}

type queryer interface {
	Query(query string, args ...any) (*sql.Rows, error)
}

type stmtQueryer struct{ s *sql.Stmt }

func (s stmtQueryer) Query(_ string, args ...any) (*sql.Rows, error) { return s.s.Query(args...) }

// rowsString runs a query through database/sql and renders columns, types and rows canonically
// (same format as the oracle's `idx rows`).
func rowsString(q queryer, text string, args ...any) string {
	return watchdog(20*time.Second, func() string {
		rows, err := q.Query(text, args...)
		if err != nil {
			return "err"
		}
		defer rows.Close()
		cols, err := rows.Columns()
		if err != nil {
			return "err-columns"
		}
		cts, err := rows.ColumnTypes()
		if err != nil {
			return "err-columntypes"
		}
		hc := make([]string, len(cols))
		for i, c := range cols {
			hc[i] = hx(c)
		}
		ts := make([]string, len(cts))
		for i, c := range cts {
			ts[i] = c.DatabaseTypeName()
		}
		var b strings.Builder
		fmt.Fprintf(&b, "ok cols=%s types=%s", strings.Join(hc, ","), strings.Join(ts, ","))
		for rows.Next() {
			vals := make([]any, len(cols))
			ptrs := make([]any, len(cols))
			for i := range vals {
				ptrs[i] = &vals[i]
			}
			if err := rows.Scan(ptrs...); err != nil {
				return "err-scan: " + err.Error()
			}
			cells := make([]string, len(vals))
			for i, v := range vals {
				switch x := v.(type) {
				case string:
					cells[i] = "t" + hx(x)
				case []byte:
					cells[i] = "t" + hx(string(x))
				case int64:
					cells[i] = fmt.Sprintf("i%d", x)
				case nil:
					cells[i] = "NULL"
				default:
					cells[i] = fmt.Sprintf("?%T", v)
				}
			}
			b.WriteString(" r " + strings.Join(cells, ","))
		}
		if err := rows.Err(); err != nil {
			return "err-rows: " + err.Error()
		}
		return b.String()
	})
}

func exToPT(e *Ex) *PT {
	t := &PT{Op: e.Op, C: e.C, V: e.V}
	for _, k := range e.Kids {
		t.Kids = append(t.Kids, exToPT(k))
	}
	return t
}

func ptToToks(t *PT) string {
	switch t.Op {
	case "E":
		v := t.V
		if v == "" {
			v = "-"
		}
		return "E " + t.C + " " + v
	case "N":
		return "N " + ptToToks(t.Kids[0])
	}
	parts := []string{t.Op, fmt.Sprint(len(t.Kids))}
	for _, k := range t.Kids {
		parts = append(parts, ptToToks(k))
	}
	return strings.Join(parts, " ")
}

var dsnOptionSets = []string{"", "?preload=true", "?lrucache=true&lrucachesize=0", "?lrucache=true&lrucachesize=2000", "?preload=true&lrucache=true&lrucachesize=4000000"}

var fileSerial int

// freshCopy gives every sql.Open its own file so that C11/C12 do not depend on handle re-use (C17's subject).
func freshCopy(path string) string {
	fileSerial++
	p := fmt.Sprintf("%s.%d", path, fileSerial)
	data, err := os.ReadFile(path)
	if err != nil {
		infra("read index: %v", err)
	}
	if err := os.WriteFile(p, data, 0644); err != nil {
		infra("copy index: %v", err)
	}
	return p
}

type SqlCase struct {
	Data    *DataSpec `json:"data"`
	DSNOpts string    `json:"dsn_opts"`
	Queries []SqlQ    `json:"queries"`
	ViaLink bool      `json:"via_link,omitempty"` // the DSN names the index through a symbolic link
	Grpc    bool      `json:"grpc,omitempty"`     // the DSN is grpc://<an updog server on the file>: same rows, same errors
}

type SqlQ struct {
	Text     string  `json:"text"`     // hex; query text
	Tree     *PQ     `json:"tree"`     // the tree the text was rendered from (placeholders allowed)
	ArgSets  [][]Arg `json:"arg_sets"` // executions (C11); empty: one execution without arguments
	Prepared bool    `json:"prepared"` // through Prepare + Stmt.Query, else direct DB.Query
}

type Arg struct {
	S   string `json:"s,omitempty"` // hex string argument
	I   int64  `json:"i,omitempty"`
	Int bool   `json:"int,omitempty"`
}

func (a Arg) val() any {
	if a.Int {
		return a.I
	}
	return unhx(a.S)
}
func (a Arg) text() string {
	if a.Int {
		return fmt.Sprint(a.I)
	}
	return unhx(a.S)
}

// updogBinAvailable: the cmd/updog binary is built by ./check for the properties that need a server process
func updogBinAvailable() bool {
	_, err := os.Stat(updogBin)
	return err == nil
}

func runSqlCase(o *Oracle, c *SqlCase, rep *Report, prop string) {
	rows := c.Data.Materialize()
	base := scratch(fmt.Sprintf("sql-%d.updog", rep.Evaluations))
	os.Remove(base)
	if _, err := buildIndexFile("mem", rows, base); err != nil {
		infra("build index: %v", err)
	}
	defer os.Remove(base)
	o.Send("idx reset")
	{
		var lines []string
		for _, r := range rows {
			lines = append(lines, rowLine(r))
		}
		o.SendMany(lines)
	}
	o.Send("idx build fast")
	path := freshCopy(base)
	defer os.Remove(path)
	dsn := "file:" + path + c.DSNOpts
	if c.ViaLink {
		link := path + ".lnk"
		os.Remove(link)
		os.Symlink(filepath.Base(path), link)
		defer os.Remove(link)
		dsn = "file:" + link + c.DSNOpts
		rep.Count("dsn-via-symlink")
	}
	if c.Grpc {
		srv := startServer(path, strings.Contains(c.DSNOpts, "lrucache=true"), strings.Contains(c.DSNOpts, "preload=true"))
		defer srv.stop()
		dsn = "grpc://" + srv.addr
		rep.Count("dsn-grpc")
	}
	db, err := sql.Open("updog", dsn)
	if err != nil {
		rep.Violate(Violation{Kind: "input", Signature: prop + ":sql-open-failed", What: err.Error(), Expected: "opens", Actual: err.Error(), Case: c})
		return
	}
	db.SetMaxOpenConns(1)
	defer func() { watchdog(10*time.Second, func() string { db.Close(); return "" }) }()
	rep.Count("dsn=" + c.DSNOpts)
	for qi := range c.Queries {
		q := &c.Queries[qi]
		text := unhx(q.Text)
		argSets := q.ArgSets
		if len(argSets) == 0 {
			argSets = [][]Arg{nil}
		}
		var qr queryer = db
		var stmt *sql.Stmt
		if q.Prepared {
			s := watchdog(20*time.Second, func() string {
				st, err := db.Prepare(text)
				if err != nil {
					return "err"
				}
				stmt = st
				return "ok"
			})
			if s != "ok" {
				// preparation fails iff the text is no sentence
				want := o.Ask("qp parse " + q.Text)
				if strings.HasPrefix(want, "ok") || s != "err" {
					rep.Violate(Violation{Kind: "input", Signature: prop + ":prepare-" + strings.SplitN(s, ":", 2)[0], What: fmt.Sprintf("Prepare(%q)", trunc(text, 200)), Expected: trunc(want, 200), Actual: s, Case: c})
				}
				continue
			}
			qr = stmtQueryer{stmt}
		}
		maxPh := 0
		var walkPh func(t *PT)
		walkPh = func(t *PT) {
			if int(t.Ph) > maxPh {
				maxPh = int(t.Ph)
			}
			for _, k := range t.Kids {
				walkPh(k)
			}
		}
		walkPh(q.Tree.T)
		for ei, args := range argSets {
			vals := make([]any, len(args))
			hexArgs := make([]string, len(args))
			wire := utf8.ValidString(text)
			for i, a := range args {
				vals[i] = a.val()
				hexArgs[i] = hx(a.text())
				wire = wire && utf8.ValidString(a.text())
			}
			if c.Grpc && !wire {
				continue // protobuf strings are UTF-8: such a query cannot be sent at all
			}
			got := rowsString(qr, text, vals...)
			// expectation: the model binds the arguments, then the model index answers the bound query
			var want string
			bound := o.Ask(fmt.Sprintf("qp bind %d %s %s", len(args), strings.Join(hexArgs, " "), q.Tree.Show()))
			switch {
			case strings.HasPrefix(bound, "err"):
				want = "err"
			case (q.Prepared || c.Grpc) && len(args) != maxPh:
				want = "err" // database/sql enforces NumInput on prepared statements; the gRPC data source has no direct path, so every query is one
			default:
				f := strings.Fields(bound)
				tree := strings.Join(f[2:], " ") // "ok <maxph> <tree> G n fields"
				gi := strings.LastIndex(tree, " G ")
				// convert the bound proto tree (E c v ph) to index-query tokens (E c v)
				want = o.Ask("idx rows " + boundToIdxToks(tree[:gi], tree[gi+3:]))
			}
			rep.Eval(fmt.Sprintf("%d|%s|%s|%v|%v", c.Data.Seed, c.DSNOpts, q.Text, q.Prepared, hexArgs), strings.Contains(want, " r ") && !strings.HasSuffix(want, " r i0"))
			rep.Count(fmt.Sprintf("prepared=%v", q.Prepared))
			if want == "err" {
				rep.Count("expected-error")
			}
			if got != want {
				sig := prop + ":rows-mismatch"
				if strings.HasPrefix(got, "panic") {
					sig = prop + ":panic"
				} else if got == "hang" {
					sig = prop + ":hang"
				} else if want == "err" {
					sig = prop + ":accepted-instead-of-error"
				}
				rep.Violate(Violation{Kind: "input", Signature: sig, What: fmt.Sprintf("execution %d of %q args %v (prepared=%v, dsn %q)", ei, trunc(text, 200), hexArgs, q.Prepared, c.DSNOpts), Expected: trunc(want, 1500), Actual: trunc(got, 1500), Case: c})
				if got == "hang" || strings.HasPrefix(got, "panic") {
					return // database/sql keeps the connection locked after a driver panic: the handle is unusable
				}
			}
		}
		if stmt != nil {
			stmt.Close()
		}
	}
}

// "<E c v ph ...>" + "n f1 f2" -> "<n> f.. <E c v ...>"
func boundToIdxToks(tree, gb string) string {
	f := strings.Fields(tree)
	var out []string
	for i := 0; i < len(f); i++ {
		if f[i] == "E" {
			out = append(out, "E", f[i+1], f[i+2])
			i += 3
			continue
		}
		out = append(out, f[i])
	}
	return gb + " " + strings.Join(out, " ")
}

func genSqlQuery(r *Rng, pool *leafPool, withPh bool) SqlQ {
	e := genExpr(r, pool, 1+r.Intn(3), true)
	t := exToPT(e)
	q := SqlQ{Tree: &PQ{T: t}}
	for _, g := range genGroupBy(r, pool, true) {
		q.Tree.GB = append(q.Tree.GB, g)
	}
	if withPh {
		// turn some leaves into placeholders; remember their original values as the natural arguments
		var leaves []*PT
		var collect func(t *PT)
		collect = func(t *PT) {
			if t.Op == "E" {
				leaves = append(leaves, t)
			}
			for _, k := range t.Kids {
				collect(k)
			}
		}
		collect(t)
		nph := 1 + r.Intn(4)
		natural := map[int32]string{}
		for _, l := range leaves {
			if r.Chance(2, 3) {
				ph := int32(1 + r.Intn(nph))
				if r.Chance(1, 10) {
					ph += int32(r.Intn(3)) // gaps
				}
				if _, ok := natural[ph]; !ok {
					natural[ph] = l.V
				}
				l.Ph = ph
				l.V = "-"
			}
		}
		maxPh := int32(0)
		for ph := range natural {
			if ph > maxPh {
				maxPh = ph
			}
		}
		nexec := 1 + r.Intn(4)
		for x := 0; x < nexec; x++ {
			n := int(maxPh)
			switch r.Intn(8) {
			case 0:
				if n > 0 {
					n = r.Intn(n) // too few
				}
			case 1:
				n += 1 + r.Intn(2) // too many
			}
			var args []Arg
			for i := 1; i <= n; i++ {
				switch {
				case r.Chance(1, 2) && natural[int32(i)] != "":
					args = append(args, Arg{S: natural[int32(i)]})
				case r.Chance(1, 4):
					args = append(args, Arg{Int: true, I: int64(r.Intn(50))})
				default:
					args = append(args, Arg{S: hx(Pick(r, hostileValues))})
				}
			}
			q.ArgSets = append(q.ArgSets, args)
		}
		q.Prepared = r.Chance(1, 2)
		if maxPh >= 2 && r.Chance(1, 3) {
			// two executions in a row whose arguments differ only in where a NUL byte sits, then invalid UTF-8
			mk := func(first, second string) []Arg {
				a := []Arg{{S: hx(first)}, {S: hx(second)}}
				for i := 3; i <= int(maxPh); i++ {
					a = append(a, Arg{S: hx("z")})
				}
				return a
			}
			q.ArgSets = append(q.ArgSets, mk("x\x00", "y"), mk("x", "\x00y"), mk("caf\xe9", "\xff"), mk("caf\ufffd", "\ufffd"))
			q.Prepared = true
		}
	}
	q.Text = hx(renderPQ(r, q.Tree))
	return q
}

func runC12(rep *Report, r *Rng, tier string) {
	defer statementLifetimes(rep, "C12")
	defer envProbes(rep, "C12", true)
	rep.Rule = "datasets (identifier column names) x query texts rendered from random trees (0..6 group-by columns, matching nothing/everything, unknown columns) x DSN option sets {none, preload, lrucache size 0/2000, preload+lrucache}; through database/sql: Columns, ColumnTypes.DatabaseTypeName, Next/Scan, Err compared with the model's rows (newRows o Execute); non-trivial = result with at least one row other than a single zero count; distinct by (dataset, dsn, text)"
	o := StartOracle()
	defer o.Close()
	n := 60
	if tier == "thorough" {
		n = 600
	}
	for i := 0; i < n; i++ {
		d := genDataSpec(r, 400, true)
		pool := poolOf(d.Materialize())
		c := &SqlCase{Data: d, DSNOpts: Pick(r, dsnOptionSets)}
		for k := 0; k < 15; k++ {
			q := genSqlQuery(r, pool, r.Chance(1, 3))  // a third of the queries with bound arguments (prepared or direct)
			if len(q.ArgSets) == 0 && r.Chance(1, 6) { // grouped query that matches nothing
				q.Tree.T = &PT{Op: "A", Kids: []*PT{q.Tree.T, {Op: "E", C: hx(Pick(r, append(pool.cols, "a"))), V: hx("no-such-value")}}}
				if len(pool.cols) > 0 && len(q.Tree.GB) == 0 {
					q.Tree.GB = []string{hx(pool.cols[0])}
				}
				q.Text = hx(renderPQ(r, q.Tree))
			}
			c.Queries = append(c.Queries, q)
		}
		if i < 2 {
			rep.Sample(c)
		}
		c.ViaLink = i%4 == 1
		runSqlCase(o, c, rep, "C12")
	}
	if tier == "thorough" {
		// 200000 distinct query texts on ONE handle; each answer identifies its own text (anything that keys on a
		// digest of the text shows up as another text's rows)
		d := &DataSpec{Seed: r.U64(), NRows: 3000, Cols: []ColSpec{{Name: hx("a"), NVals: 1, Dist: "unique", Style: "ascii"}}}
		rows := d.Materialize()
		for i, rw := range rows {
			rw["g"] = fmt.Sprint(i % 251)
		}
		base := scratch("sql-many.updog")
		os.Remove(base)
		w := updogWriterFromRows(base, rows)
		if w == nil {
			db, err := sql.Open("updog", "file:"+base)
			if err == nil {
				db.SetMaxOpenConns(1)
				for i := 0; i < 200000 && rep.NViol() < 3; i++ {
					v := i % 3000
					pad := strings.Repeat(" ", i/3000) // the same query, textually different
					text := fmt.Sprintf("a =%s \"%d\" ; g", pad, v)
					want := fmt.Sprintf("ok cols=%s,%s types=TEXT,BIGINT r t%s,i1", hx("g"), hx("count"), hx(fmt.Sprint(v%251)))
					if got := rowsString(db, text); got != want {
						rep.Violate(Violation{Kind: "history", Signature: "C12:rows-mismatch", What: fmt.Sprintf("query text %q after %d other texts on the same handle", text, i), Expected: want, Actual: trunc(got, 300), Case: map[string]any{"many_texts": i}})
					}
				}
				rep.Count("many-texts-handles")
				db.Close()
			}
		}
		os.Remove(base)
	}
	rep.OracleCalls = o.n
}

// updogWriterFromRows writes rows with the in-memory writer; nil on success
func updogWriterFromRows(path string, rows []map[string]string) error {
	_, err := buildIndexFile("mem", rows, path)
	return err
}

func runC11(rep *Report, r *Rng, tier string) {
	defer statementLifetimes(rep, "C11")
	rep.Rule = "query texts with literals and placeholders (repeated, out of order, gaps) x argument lists (hostile strings, integers; too few / exact / too many) x 1..4 executions, through Prepare+Stmt.Query and direct DB.Query on file DSNs; each execution compared with the model (bind, then Execute of the bound query, then newRows); ReplacePlaceholders compared with the model's subst and the template compared before/after; non-trivial = execution returning a row other than a single zero count; distinct by (dataset, text, path, args)"
	o := StartOracle()
	defer o.Close()
	n := 60
	if tier == "thorough" {
		n = 600
	}
	for i := 0; i < n; i++ {
		d := genDataSpec(r, 300, true)
		pool := poolOf(d.Materialize())
		c := &SqlCase{Data: d, DSNOpts: Pick(r, dsnOptionSets)}
		for k := 0; k < 12; k++ {
			c.Queries = append(c.Queries, genSqlQuery(r, pool, true))
		}
		if i < 2 {
			rep.Sample(c)
		}
		runSqlCase(o, c, rep, "C11")
		// in-process tie of ReplacePlaceholders to the model, and template immutability
		for qi := range c.Queries {
			q := &c.Queries[qi]
			tmpl := q.Tree.Proto()
			before := gproto.Clone(tmpl)
			for _, args := range q.ArgSets {
				vals := make([]string, len(args))
				hexArgs := make([]string, len(args))
				for j, a := range args {
					vals[j] = a.text()
					hexArgs[j] = hx(vals[j])
				}
				want := o.Ask(fmt.Sprintf("qp bind %d %s %s", len(args), strings.Join(hexArgs, " "), q.Tree.Show()))
				if strings.HasPrefix(want, "err") {
					continue // ReplacePlaceholders itself is only called with enough arguments
				}
				got := watchdog(5*time.Second, func() string {
					return "ok " + showPQuery(verifhook.ReplacePlaceholders(tmpl, vals))
				})
				rep.Count("replaceplaceholders-compared")
				f := strings.SplitN(want, " ", 3)
				if got != "ok "+f[2] {
					rep.Violate(Violation{Kind: "input", Signature: "C11:binding-wrong", What: "ReplacePlaceholders differs from exact substitution", Expected: trunc(f[2], 800), Actual: trunc(got, 800), Case: c})
				}
				if !gproto.Equal(tmpl, before) {
					rep.Violate(Violation{Kind: "history", Signature: "C11:template-modified", What: "ReplacePlaceholders modified the parsed query it was given", Expected: "template unchanged", Actual: trunc(showPQuery(tmpl), 800), Case: c})
				}
			}
		}
	}
	// the same bindings through the driver's gRPC data source
	ng := 4
	if tier == "thorough" {
		ng = 30
	}
	for i := 0; i < ng && updogBinAvailable(); i++ {
		d := genDataSpecUTF8(r, 200)
		pool := poolOf(d.Materialize())
		c := &SqlCase{Data: d, DSNOpts: "", Grpc: true}
		for k := 0; k < 12; k++ {
			c.Queries = append(c.Queries, genSqlQuery(r, pool, true))
		}
		runSqlCase(o, c, rep, "C11")
	}
	rep.OracleCalls = o.n
}

// ---------- C17: handle histories ----------

type DrvOp struct {
	Op     string `json:"op"` // open | query | pquery | close | burst
	Handle int    `json:"h"`
	File   int    `json:"file,omitempty"`
	Opts   int    `json:"opts,omitempty"`
	Pool   int    `json:"pool,omitempty"`
}

type DrvCase struct {
	Ops []DrvOp `json:"ops"`
}

var drvOpts = []string{"", "?preload=true", "?lrucache=true&lrucachesize=100000"}

type drvEnv struct {
	files    []string
	expected []string // rows expected for the probe query per file
	probe    string
}

func releasedProbe(path string) string {
	db, err := bbolt.Open(path, 0644, &bbolt.Options{Timeout: 1500 * time.Millisecond})
	if err != nil {
		if strings.Contains(err.Error(), "timeout") {
			return "locked: " + err.Error()
		}
		return "released" // not a bolt file: the open failed for another reason than the lock
	}
	db.Close()
	return "released"
}

func runDrvCase(env *drvEnv, c *DrvCase, rep *Report) (aborted bool) {
	handles := map[int]*sql.DB{}
	hfile := map[int]int{}
	viol := func(kind, sig, what, exp, act string) {
		rep.Violate(Violation{Kind: kind, Signature: sig, What: what, Expected: exp, Actual: trunc(act, 500), Case: c})
	}
	defer func() {
		if aborted {
			return
		}
		for h, db := range handles {
			s := watchdog(10*time.Second, func() string { db.Close(); return "ok" })
			if s != "ok" {
				viol("history", "C17:close-"+strings.SplitN(s, ":", 2)[0], fmt.Sprintf("final Close of handle %d", h), "ok", s)
				aborted = aborted || s == "hang"
			}
		}
		if aborted {
			return
		}
		for fi, f := range env.files {
			if s := releasedProbe(f); s != "released" {
				viol("history", "C17:file-not-released", fmt.Sprintf("file %d still locked after every handle was closed", fi), "released", s)
			}
		}
	}()
	for i, op := range c.Ops {
		rep.Count("op=" + op.Op)
		switch op.Op {
		case "open":
			if _, ok := handles[op.Handle]; ok {
				continue
			}
			db, err := sql.Open("updog", "file:"+env.files[op.File]+drvOpts[op.Opts])
			if err != nil {
				viol("history", "C17:open-error", fmt.Sprintf("op %d sql.Open", i), "ok", err.Error())
				continue
			}
			if op.Pool > 0 {
				db.SetMaxOpenConns(op.Pool)
				db.SetMaxIdleConns(op.Pool)
			}
			handles[op.Handle] = db
			hfile[op.Handle] = op.File
		case "query", "pquery":
			db, ok := handles[op.Handle]
			if !ok {
				continue
			}
			var got string
			if op.Op == "query" {
				got = rowsString(db, env.probe)
			} else {
				got = watchdog(20*time.Second, func() string {
					st, err := db.Prepare(env.probe)
					if err != nil {
						return "err-prepare: " + err.Error()
					}
					defer st.Close()
					return rowsString(stmtQueryer{st}, "")
				})
			}
			rep.Eval(fmt.Sprintf("%v", c.Ops[:i+1]), i > 1)
			if want := env.expected[hfile[op.Handle]]; got != want {
				sig := "C17:wrong-rows"
				if strings.HasPrefix(got, "panic") {
					sig = "C17:panic"
				} else if got == "hang" {
					sig = "C17:hang"
				} else if strings.HasPrefix(got, "err") {
					sig = "C17:query-error"
				}
				viol("history", sig, fmt.Sprintf("op %d %s on handle %d", i, op.Op, op.Handle), want, got)
				if got == "hang" {
					return true
				}
			}
		case "burst": // concurrent first use of a handle by 16 goroutines
			db, ok := handles[op.Handle]
			if !ok {
				continue
			}
			want := env.expected[hfile[op.Handle]]
			res := watchdog(30*time.Second, func() string {
				var wg sync.WaitGroup
				out := make([]string, 16)
				for g := 0; g < 16; g++ {
					wg.Add(1)
					go func(g int) {
						defer wg.Done()
						out[g] = rowsString(db, env.probe)
					}(g)
				}
				wg.Wait()
				for _, s := range out {
					if s != want {
						return s
					}
				}
				return "ok"
			})
			rep.Eval(fmt.Sprintf("%v", c.Ops[:i+1]), true)
			if res != "ok" {
				sig := "C17:wrong-rows"
				if strings.HasPrefix(res, "panic") {
					sig = "C17:panic"
				} else if res == "hang" {
					sig = "C17:hang"
				} else if strings.HasPrefix(res, "err") {
					sig = "C17:query-error"
				}
				viol("schedule", sig, fmt.Sprintf("op %d: 16 goroutines using handle %d concurrently", i, op.Handle), want, res)
				if res == "hang" {
					return true
				}
			}
		case "close":
			db, ok := handles[op.Handle]
			if !ok {
				continue
			}
			s := watchdog(10*time.Second, func() string {
				if err := db.Close(); err != nil {
					return "err: " + err.Error()
				}
				return "ok"
			})
			delete(handles, op.Handle)
			if s != "ok" {
				viol("history", "C17:close-"+strings.SplitN(s, ":", 2)[0], fmt.Sprintf("op %d Close of handle %d", i, op.Handle), "ok", s)
				if s == "hang" {
					return true
				}
			}
			// last handle on that file closed -> released
			still := false
			for h := range handles {
				if hfile[h] == hfile[op.Handle] {
					still = true
				}
			}
			if !still {
				if s := releasedProbe(env.files[hfile[op.Handle]]); s != "released" {
					viol("history", "C17:file-not-released", fmt.Sprintf("op %d: file %d still locked after its last handle was closed", i, hfile[op.Handle]), "released", s)
				}
			}
		}
	}
	return false
}

func genDrvCase(r *Rng, nops int, sameOptsPerFile bool) *DrvCase {
	c := &DrvCase{}
	open := map[int]bool{}
	for i := 0; i < nops; i++ {
		h := r.Intn(4)
		switch {
		case !open[h]:
			op := DrvOp{Op: "open", Handle: h, File: r.Intn(2), Opts: r.Intn(len(drvOpts)), Pool: Pick(r, []int{0, 1, 2, 8})}
			if sameOptsPerFile {
				op.Opts = op.File
			}
			c.Ops = append(c.Ops, op)
			open[h] = true
		case r.Chance(1, 4):
			c.Ops = append(c.Ops, DrvOp{Op: "close", Handle: h})
			open[h] = false
		case r.Chance(1, 6):
			c.Ops = append(c.Ops, DrvOp{Op: "burst", Handle: h})
		case r.Chance(1, 3):
			c.Ops = append(c.Ops, DrvOp{Op: "pquery", Handle: h})
		default:
			c.Ops = append(c.Ops, DrvOp{Op: "query", Handle: h})
		}
	}
	return c
}

func newDrvEnv(o *Oracle, r *Rng) *drvEnv {
	env := &drvEnv{probe: `a = "1" | ^ b = "0" ; a`}
	for fi := 0; fi < 2; fi++ {
		d := &DataSpec{Seed: r.U64(), NRows: 50 + 30*fi, Cols: []ColSpec{{Name: hx("a"), NVals: 3, Dist: "random", Style: "ascii"}, {Name: hx("b"), NVals: 2, Dist: "random", Style: "ascii"}}}
		rows := d.Materialize()
		p := scratch(fmt.Sprintf("drv-%d-%d.updog", r.U64()%100000, fi))
		if _, err := buildIndexFile("mem", rows, p); err != nil {
			infra("build: %v", err)
		}
		o.Send("idx reset")
		{
			var lines []string
			for _, rw := range rows {
				lines = append(lines, rowLine(rw))
			}
			o.SendMany(lines)
		}
		o.Send("idx build fast")
		env.files = append(env.files, p)
		env.expected = append(env.expected, o.Ask("idx rows 1 61 O 2 E 61 31 N E 62 30"))
	}
	return env
}

func runC17(rep *Report, r *Rng, tier string) {
	defer statementLifetimes(rep, "C17")
	defer envProbes(rep, "C17", true)
	defer cancelledStatements(rep, r, "C17")
	rep.Rule = "histories over {sql.Open(file DSN with one of 3 option strings, pool size 0/1/2/8), Query, Prepare+Stmt.Query, Close, 16-goroutine burst on one handle} on 2 files and up to 4 handles (reopening after the last close, several handles per file, same file with different option strings); every op under a watchdog; every query compared with the model's rows; after the last close of a file an exclusive bbolt.Open must succeed within 1.5 s; non-trivial = query/burst at history position >= 2; distinct by history prefix"
	o := StartOracle()
	defer o.Close()
	env := newDrvEnv(o, r)
	n, maxOps := 150, 12
	if tier == "thorough" {
		n, maxOps = 1500, 30
	}
	// corpus: the design-phase witnesses
	corpus := []*DrvCase{
		{Ops: []DrvOp{{Op: "open", Handle: 0}, {Op: "query", Handle: 0}, {Op: "close", Handle: 0}, {Op: "open", Handle: 1}, {Op: "query", Handle: 1}}},
		{Ops: []DrvOp{{Op: "open", Handle: 0}, {Op: "burst", Handle: 0}}},
		{Ops: []DrvOp{{Op: "open", Handle: 0}, {Op: "query", Handle: 0}, {Op: "open", Handle: 1, Opts: 1}, {Op: "query", Handle: 1}}},
		{Ops: []DrvOp{{Op: "open", Handle: 0, Pool: 8}, {Op: "burst", Handle: 0}, {Op: "close", Handle: 0}, {Op: "open", Handle: 0, Pool: 8}, {Op: "burst", Handle: 0}}},
	}
	for _, c := range corpus {
		rep.Count("corpus")
		if rep.NViol() >= 6 {
			break
		}
		if runDrvCase(env, c, rep) {
			rep.Note("run aborted after a hang (a blocked goroutine cannot be recovered in-process)")
			return
		}
	}
	for i := 0; i < n; i++ {
		c := genDrvCase(r, 2+r.Intn(maxOps), false)
		if i < 2 {
			rep.Sample(c)
		}
		if runDrvCase(env, c, rep) {
			rep.Note("run aborted after a hang (a blocked goroutine cannot be recovered in-process)")
			return
		}
		if rep.NViol() >= 6 {
			rep.Note("stopped early after %d violations", rep.NViol())
			return
		}
	}
	// file names ending in option-like text, next to the plain name opened with that option
	{
		plain := scratch("drv-names.updog")
		tricky := plain + ";preload=true"
		copyFile(env.files[0], plain)
		copyFile(env.files[1], tricky)
		db1, _ := sql.Open("updog", "file:"+plain+"?preload=true")
		db2, _ := sql.Open("updog", "file:"+tricky)
		a1, a2, a3 := rowsString(db1, env.probe), rowsString(db2, env.probe), rowsString(db1, env.probe)
		db1.Close()
		db2.Close()
		rep.Eval("tricky-names", true)
		rep.Count("option-like-file-names")
		if got, want := a1+" | "+a2+" | "+a3, env.expected[0]+" | "+env.expected[1]+" | "+env.expected[0]; got != want {
			rep.Violate(Violation{Kind: "history", Signature: "C17:wrong-rows", What: "two files, one named like the other plus option text (x and x;preload=true), opened at the same time", Expected: trunc(want, 500), Actual: trunc(got, 500), Case: map[string]any{"names": "option-like"}})
		}
		for _, f := range []string{plain, tricky} {
			if s := releasedProbe(f); s != "released" {
				rep.Violate(Violation{Kind: "history", Signature: "C17:file-not-released", What: "file with option-like name still locked after close", Expected: "released", Actual: s, Case: map[string]any{"names": "option-like"}})
			}
			os.Remove(f)
		}
	}
	// a data source whose option fails on first use (preload over a damaged bitmap): the query fails cleanly and
	// nothing stays locked after the handle is closed
	{
		bad := scratch("drv-badpreload.updog")
		makeDamaged(env.files[0], bad, Damage{Kind: "bolt", Bucket: true, S: "good", I: "good", V: "bad"})
		db, _ := sql.Open("updog", "file:"+bad+"?preload=true")
		first := rowsString(db, env.probe)
		db.Close()
		rep.Eval("failing-option", true)
		rep.Count("failing-option-dsn")
		if first != "err" {
			rep.Violate(Violation{Kind: "history", Signature: "C17:query-error", What: "query through a DSN with preload=true on a file with an undecodable bitmap", Expected: "err", Actual: trunc(first, 300), Case: map[string]any{"dsn": "failing option"}})
		}
		if s := releasedProbe(bad); s != "released" {
			rep.Violate(Violation{Kind: "history", Signature: "C17:file-not-released", What: "file still locked after a handle whose first use failed was closed", Expected: "released", Actual: s, Case: map[string]any{"dsn": "failing option"}})
		}
		os.Remove(bad)
	}
	// a data source opened before its file exists: queries fail cleanly; once the file is there the same handle
	// and new handles on the same DSN work; after all handles are closed and the file has been replaced by another
	// index, a new handle sees the new contents (nothing outlives the last close)
	for li, opts := range drvOpts {
		if rep.NViol() >= 6 {
			break
		}
		late := scratch(fmt.Sprintf("drv-late-%d.updog", li))
		os.Remove(late)
		dsn := "file:" + late + opts
		db, err := sql.Open("updog", dsn)
		if err != nil {
			continue
		}
		first := rowsString(db, env.probe)
		copyFile(env.files[0], late)
		second := rowsString(db, env.probe)
		db2, _ := sql.Open("updog", dsn)
		third := rowsString(db2, env.probe)
		db.Close()
		db2.Close()
		copyFile(env.files[1], late) // same path, different index
		db3, _ := sql.Open("updog", dsn)
		fourth := rowsString(db3, env.probe)
		db3.Close()
		rep.Eval("late-file"+opts, true)
		rep.Count("late-and-regenerated-file")
		got := fmt.Sprintf("%s | %s | %s | %s", first, second, third, fourth)
		want := fmt.Sprintf("err | %s | %s | %s", env.expected[0], env.expected[0], env.expected[1])
		if got != want {
			sig := "C17:wrong-rows"
			if strings.Contains(got, "panic") {
				sig = "C17:panic"
			} else if strings.Contains(got, "hang") {
				sig = "C17:hang"
			}
			rep.Violate(Violation{Kind: "history", Signature: sig, What: "DSN " + dsn + ": query before the file exists; file created; same handle; second handle; all closed; file replaced by another index; new handle", Expected: trunc(want, 600), Actual: trunc(got, 600), Case: map[string]any{"late": opts}})
			if strings.Contains(got, "hang") {
				return
			}
		}
		if s := releasedProbe(late); s != "released" {
			rep.Violate(Violation{Kind: "history", Signature: "C17:file-not-released", What: "late file still locked after all handles were closed", Expected: "released", Actual: s, Case: map[string]any{"late": opts}})
		}
		os.Remove(late)
	}
	// churn: goroutines open, query and close handles on the SAME data source concurrently, so that last closes
	// overlap with opens
	rounds := 40
	if tier == "thorough" {
		rounds = 400
	}
	for round := 0; round < rounds && rep.NViol() < 6; round++ {
		dsn := "file:" + env.files[round%2] + drvOpts[round%len(drvOpts)]
		res := watchdog(60*time.Second, func() string {
			var wg sync.WaitGroup
			out := make([]string, 8)
			for g := 0; g < 8; g++ {
				wg.Add(1)
				go func(g int) {
					defer wg.Done()
					defer func() {
						if p := recover(); p != nil {
							out[g] = fmt.Sprintf("panic: %v", p)
						}
					}()
					for k := 0; k < 6; k++ {
						db, err := sql.Open("updog", dsn)
						if err != nil {
							out[g] = "err-open: " + err.Error()
							return
						}
						s := rowsString(db, env.probe)
						db.Close()
						if s != env.expected[round%2] {
							out[g] = s
							return
						}
					}
				}(g)
			}
			wg.Wait()
			for _, s := range out {
				if s != "" {
					return s
				}
			}
			return "ok"
		})
		rep.Eval(fmt.Sprintf("churn-%d", round), true)
		rep.Count("churn-rounds")
		if res != "ok" {
			sig := "C17:wrong-rows"
			if strings.HasPrefix(res, "panic") {
				sig = "C17:panic"
			} else if res == "hang" {
				sig = "C17:hang"
			} else if strings.HasPrefix(res, "err") {
				sig = "C17:query-error"
			}
			rep.Violate(Violation{Kind: "schedule", Signature: sig, What: "8 goroutines opening, querying and closing handles on one data source concurrently (" + dsn + ")", Expected: env.expected[round%2], Actual: trunc(res, 400), Case: map[string]any{"churn": dsn}})
			if res == "hang" {
				return
			}
		}
		if s := releasedProbe(env.files[round%2]); s != "released" {
			rep.Violate(Violation{Kind: "schedule", Signature: "C17:file-not-released", What: "file still locked after every handle of a concurrent open/query/close round was closed", Expected: "released", Actual: s, Case: map[string]any{"churn": dsn}})
		}
	}
	rep.OracleCalls = o.n
}

func init() {
	runners["C11"] = runC11
	runners["C12"] = runC12
	runners["C17"] = runC17
	for _, p := range []string{"C11", "C12"} {
		p := p
		replayers[p] = func(rep *Report, b []byte) {
			var c SqlCase
			if err := json.Unmarshal(b, &c); err != nil {
				infra("bad case: %v", err)
			}
			o := StartOracle()
			defer o.Close()
			runSqlCase(o, &c, rep, p)
		}
	}
	replayers["C17"] = func(rep *Report, b []byte) {
		var c DrvCase
		if err := json.Unmarshal(b, &c); err != nil {
			infra("bad case: %v", err)
		}
		o := StartOracle()
		defer o.Close()
		runDrvCase(newDrvEnv(o, NewRng(1)), &c, rep)
	}
}

// runGrpcDriverCases: the driver's gRPC data source (an updog server on the file) returns the library's rows; with
// connection churn (no idle connections kept, several goroutines) every answer still equals the model's
func runGrpcDriverCases(o *Oracle, rep *Report, r *Rng, tier string, prop string) {
	ng := 4
	if tier == "thorough" {
		ng = 30
	}
	for i := 0; i < ng && updogBinAvailable(); i++ {
		d := genDataSpecUTF8(r, 300)
		pool := poolOf(d.Materialize())
		c := &SqlCase{Data: d, DSNOpts: Pick(r, dsnOptionSets), Grpc: true}
		for k := 0; k < 12; k++ {
			c.Queries = append(c.Queries, genSqlQuery(r, pool, r.Chance(1, 3)))
		}
		runSqlCase(o, c, rep, prop)
	}
}

// driverCacheIsolation: through database/sql, two DIFFERENT index files opened with the SAME option string (LRU cache
// on) — each data source must answer from its own data however the driver manages caches; also the same path
// regenerated with other data between two lifetimes of a handle. Compared with an uncached library index per file.
func driverCacheIsolation(rep *Report, r *Rng, prop string) {
	mk := func(name string, shift int) (string, []map[string]string) {
		var rows []map[string]string
		for i := 0; i < 120; i++ {
			rows = append(rows, map[string]string{"status": []string{"ok", "error", "slow"}[(i+shift)%3], "zone": fmt.Sprint((i * (shift + 1)) % 4)})
		}
		p := scratch(name)
		os.Remove(p)
		if _, err := buildIndexFile("mem", rows, p); err != nil {
			infra("build: %v", err)
		}
		return p, rows
	}
	pa, _ := mk("iso-a.updog", 0)
	pb, _ := mk("iso-b.updog", 1)
	defer os.Remove(pa)
	defer os.Remove(pb)
	texts := []string{`status = "error"`, `status = "error" & zone = "1"`, `status = "ok" | zone = "2"`, `^ status = "slow"`, `status = "error" & ( zone = "1" | zone = "3" )`}
	libCount := func(path, text string) string {
		idx, _, err := openIdx(path, false, -1)
		if err != nil {
			return "open-err"
		}
		defer idx.Close()
		pq, err := verifhook.ParseQuery(text)
		if err != nil {
			return "parse-err"
		}
		return safeExecute(idx, verifhook.ToQuery(pq))
	}
	for _, opts := range []string{"?lrucache=true&lrucachesize=1000000", "?lrucache=true&lrucachesize=1000000&preload=true"} {
		dba, err1 := sql.Open("updog", "file:"+pa+opts)
		dbb, err2 := sql.Open("updog", "file:"+pb+opts)
		if err1 != nil || err2 != nil {
			continue
		}
		for _, text := range texts {
			for _, side := range []struct {
				db   *sql.DB
				path string
			}{{dba, pa}, {dbb, pb}, {dba, pa}} {
				var n int64
				got := "err"
				if err := side.db.QueryRow(text).Scan(&n); err == nil {
					got = fmt.Sprintf("ok %d", n)
				}
				want := libCount(side.path, text)
				rep.Eval(fmt.Sprintf("iso|%s|%s|%s", opts, text, filepath.Base(side.path)), true)
				rep.Count("driver-cache-isolation-queries")
				if got != want {
					rep.Violate(Violation{Kind: "history", Signature: prop + ":differs-from-fresh", What: fmt.Sprintf("sql driver, two index files opened with the same options %q: query %q on %s", opts, text, filepath.Base(side.path)), Expected: want, Actual: got, Case: map[string]any{"dsn_opts": opts, "text": text}})
				}
			}
		}
		dba.Close()
		dbb.Close()
	}
}

// cancelledStatements: a prepared statement executed through QueryContext with a deadline that ends while the query is
// still being evaluated, then every handle on the data source is closed and the file opened again. However the driver
// treats the context, nothing may keep using the closed index (a fault there kills the whole process; ./check reports
// a process crash as a violation of the property being checked) and later handles answer correctly.
func cancelledStatements(rep *Report, r *Rng, prop string) {
	var rows []map[string]string
	for i := 0; i < 40000; i++ {
		rows = append(rows, map[string]string{"a": fmt.Sprint(i % 211), "b": fmt.Sprint(i % 97), "c": fmt.Sprint((i * 7) % 53)})
	}
	p := scratch("cancel.updog")
	os.Remove(p)
	if _, err := buildIndexFile("mem", rows, p); err != nil {
		infra("build: %v", err)
	}
	defer os.Remove(p)
	text := `^ a = "nope" ; a, b, c`
	for round, opts := range []string{"", "?preload=true"} {
		res := watchdog(120*time.Second, func() string {
			db, err := sql.Open("updog", "file:"+p+opts)
			if err != nil {
				return "open: " + err.Error()
			}
			st, err := db.Prepare(text)
			if err != nil {
				db.Close()
				return "prepare: " + err.Error()
			}
			for _, d := range []time.Duration{time.Millisecond, 5 * time.Millisecond, 30 * time.Millisecond} {
				ctx, cancel := context.WithTimeout(context.Background(), d)
				rs, err := st.QueryContext(ctx)
				if err == nil {
					for rs.Next() {
					}
					rs.Close()
				}
				cancel()
			}
			st.Close()
			db.Close()
			time.Sleep(400 * time.Millisecond) // anything still evaluating now works on a closed index
			db2, err := sql.Open("updog", "file:"+p+opts)
			if err != nil {
				return "reopen: " + err.Error()
			}
			defer db2.Close()
			var n int64
			if err := db2.QueryRow(`a = "3"`).Scan(&n); err != nil {
				return "query after reopen: " + err.Error()
			}
			return fmt.Sprintf("ok %d", n)
		})
		rep.Eval(fmt.Sprintf("cancelled-statements-%d", round), true)
		rep.Count("cancelled-statement-rounds")
		if want := fmt.Sprintf("ok %d", (40000+211-1-3)/211); res != want {
			rep.Violate(Violation{Kind: "history", Signature: prop + ":" + strings.SplitN(res, ":", 2)[0], What: "prepared statement run under deadlines, all handles closed, data source reopened (dsn options " + opts + ")", Expected: want, Actual: res, Case: map[string]any{"dsn_opts": opts}})
		}
	}
}

// statementLifetimes: histories of prepared statements on one data source that the random cases do not reach:
// several statements prepared from the SAME text and closed independently, three result sets of one statement open
// at once (the pool hands the statement to several connections and retires them), placeholder numbers beyond int32,
// and statements whose texts differ only in white space INSIDE a quoted value. Expected answers come from the library.
func statementLifetimes(rep *Report, prop string) {
	path := scratch("stmt-life.updog")
	os.Remove(path)
	rows := []map[string]string{{"c": "a  b", "k": "1"}, {"c": "a b", "k": "1"}, {"c": "a b", "k": "2"}, {"c": "a\tb", "k": "2"}, {"c": "a b", "k": "1"}, {"c": "a  b", "k": "2"}, {"c": "a  b", "k": "3"}}
	if _, err := buildIndexFile("mem", rows, path); err != nil {
		infra("build: %v", err)
	}
	defer os.Remove(path)
	lib := func(text string) string {
		idx, _, err := openIdx(path, false, -1)
		if err != nil {
			return "open-err"
		}
		defer idx.Close()
		pq, err := verifhook.ParseQuery(text)
		if err != nil {
			return "err"
		}
		res := safeExecute(idx, verifhook.ToQuery(pq))
		if strings.HasPrefix(res, "ok ") {
			return strings.Fields(res)[1]
		}
		return "err"
	}
	count := func(q queryer, text string, args ...any) string {
		return watchdog(20*time.Second, func() string {
			rs, err := q.Query(text, args...)
			if err != nil {
				return "err"
			}
			defer rs.Close()
			var n int64
			if !rs.Next() {
				return "norow"
			}
			if err := rs.Scan(&n); err != nil {
				return "scan-err"
			}
			return fmt.Sprint(n)
		})
	}
	viol := func(what, want, got string) {
		rep.Violate(Violation{Kind: "history", Signature: prop + ":statement-history", What: what, Expected: want, Actual: got, Case: map[string]any{"scenario": what}})
	}
	for _, opts := range []string{"", "?lrucache=true&lrucachesize=100000"} {
		db, err := sql.Open("updog", "file:"+path+opts)
		if err != nil {
			continue
		}
		// texts that differ only inside a quoted value
		for round := 0; round < 2; round++ {
			for _, v := range []string{"a  b", "a b", "a\tb", "a b", "a   b"} {
				text := fmt.Sprintf("c = %q", v)
				text = strings.ReplaceAll(text, `\t`, "\t")
				text = strings.ReplaceAll(text, ` `, " ")
				rep.Count("whitespace-literal-queries")
				if got, want := count(db, text), lib(text); got != want {
					viol(fmt.Sprintf("query %q run after other texts that differ only in white space inside the quoted value", text), want, got)
				}
				if st, err := db.Prepare(text); err == nil {
					if got, want := count(stmtQueryer{st}, text), lib(text); got != want {
						viol(fmt.Sprintf("prepared %q after other texts that differ only in white space inside the quoted value", text), want, got)
					}
					st.Close()
				}
			}
		}
		// two statements from one text, closed independently
		text := `k = $1`
		s1, e1 := db.Prepare(text)
		s2, e2 := db.Prepare(text)
		if e1 == nil && e2 == nil {
			a := count(stmtQueryer{s1}, text, "1")
			s1.Close()
			b := count(stmtQueryer{s2}, text, "2")
			c3 := count(stmtQueryer{s2}, text, "1")
			s2.Close()
			rep.Count("twin-statements")
			if want := lib(`k = "1"`) + "," + lib(`k = "2"`) + "," + lib(`k = "1"`); a+","+b+","+c3 != want {
				viol("two statements prepared from the same text; the first is closed, the second keeps being used", want, a+","+b+","+c3)
			}
		}
		// three result sets of one statement open at once, then released (the pool retires connections)
		if st, err := db.Prepare(text); err == nil {
			var open []*sql.Rows
			for k := 0; k < 3; k++ {
				if rs, err := st.Query("1"); err == nil {
					open = append(open, rs)
				}
			}
			for _, rs := range open {
				rs.Close()
			}
			got := count(stmtQueryer{st}, text, "2")
			st.Close()
			rep.Count("overlapping-result-sets")
			if want := lib(`k = "2"`); got != want {
				viol("one statement with three result sets open at once, released, then executed again", want, got)
			}
		}
		// placeholder numbers that do not fit 32 bits are no placeholders at all: the text is rejected
		for _, t := range []string{`k = $4294967297`, `k = $4294967296`, `k = $2147483648`, `k = $18446744073709551617`, `k = $0`} {
			got := count(db, t, "1")
			rep.Count("oversized-placeholder-texts")
			if got != "err" {
				viol(fmt.Sprintf("query %q with one argument", t), "err", got)
			}
		}
		db.Close()
	}
}
