package main

import (
	"bytes"
	"crypto/sha256"
	"encoding/json"
	"fmt"
	"io"
	"os"
	"os/exec"
	"path/filepath"
	"runtime"
	"strings"
	"sync"
	"syscall"
	"time"

	"github.com/RoaringBitmap/roaring"
	"github.com/akrennmair/updog"
	"go.etcd.io/bbolt"
)

func sha(path string) string {
	f, err := os.Open(path)
	if err != nil {
		return "absent"
	}
	defer f.Close()
	h := sha256.New()
	io.Copy(h, f)
	return fmt.Sprintf("%x", h.Sum(nil))
}

func copyFile(src, dst string) {
	data, err := os.ReadFile(src)
	if err != nil {
		infra("copy: %v", err)
	}
	if err := os.WriteFile(dst, data, 0644); err != nil {
		infra("copy: %v", err)
	}
}

// ---------- C15 ----------

type Damage struct {
	Kind   string `json:"kind"`   // absent | garbage | empty | bolt
	Bucket bool   `json:"bucket"` // data bucket present
	S      string `json:"s"`      // good | missing | bad
	I      string `json:"i"`      // good | missing | short | long
	V      string `json:"v"`      // good | bad (one bitmap undecodable) | missing (one bitmap removed)
}

func (d Damage) String() string {
	return fmt.Sprintf("kind=%s bucket=%v S=%s I=%s V=%s", d.Kind, d.Bucket, d.S, d.I, d.V)
}

type OpenCase struct {
	D       Damage `json:"damage"`
	Preload bool   `json:"preload"`
	Cache   bool   `json:"cache"`
	Seq     string `json:"seq"`                    // open-open | open-close-close-open
	Procs   int    `json:"procs,omitempty"`        // GOMAXPROCS while OpenIndex runs (0: unchanged)
	Intact  bool   `json:"intact_first,omitempty"` // the intact file was opened and closed under the same path by this process before; the damage keeps size and mtime
}

// derive a damaged file from a valid index
func makeDamaged(valid, path string, d Damage) {
	os.Remove(path)
	switch d.Kind {
	case "absent":
		return
	case "garbage":
		os.WriteFile(path, bytes.Repeat([]byte("this is not a bolt database. "), 2000), 0644)
		return
	case "empty":
		os.WriteFile(path, nil, 0644)
		return
	}
	copyFile(valid, path)
	damageInPlace(path, d)
}

// damageInPlace edits the bbolt file at path (same inode; bbolt rewrites pages in place, the size stays)
func damageInPlace(path string, d Damage) {
	db, err := bbolt.Open(path, 0644, boltOpts)
	if err != nil {
		infra("open for damage: %v", err)
	}
	defer db.Close()
	err = db.Update(func(tx *bbolt.Tx) error {
		if !d.Bucket {
			return tx.DeleteBucket([]byte("data"))
		}
		b := tx.Bucket([]byte("data"))
		switch d.S {
		case "missing":
			b.Delete([]byte("S"))
		case "bad":
			b.Put([]byte("S"), []byte("\x01\x02garbage"))
		}
		switch d.I {
		case "missing":
			b.Delete([]byte("I"))
		case "short":
			b.Put([]byte("I"), []byte{0, 1})
		case "long":
			b.Put([]byte("I"), []byte{0, 0, 0, 1, 0})
		}
		if d.V != "good" {
			c := b.Cursor()
			k, _ := c.Seek([]byte("V"))
			if k != nil && k[0] == 'V' {
				kk := append([]byte{}, k...)
				switch d.V {
				case "bad":
					b.Put(kk, []byte("\xff\xffnot a roaring bitmap"))
				case "empty":
					b.Put(kk, []byte{})
				case "emptyroaring": // a valid serialisation of a bitmap without any value: decodable
					eb, _ := roaring.New().ToBytes()
					b.Put(kk, eb)
				case "half":
					v := b.Get(kk)
					b.Put(kk, append([]byte{}, v[:len(v)/2]...))
				default:
					b.Delete(kk)
				}
			}
		}
		return nil
	})
	if err != nil {
		infra("damage: %v", err)
	}
}

func openClass(path string, preload, cache bool) (string, *updog.Index) {
	c := int64(-1)
	if cache {
		c = 10000
	}
	idx, _, err := openIdx(path, preload, c)
	if err != nil {
		s := err.Error()
		if strings.HasPrefix(s, "panic") {
			return "panic", nil
		}
		if strings.HasPrefix(s, "hang") {
			return "hang", nil
		}
		return "err", nil
	}
	return "ok", idx
}

func runOpenCase(o *Oracle, valid string, c *OpenCase, rep *Report) {
	path := scratch("damaged.updog")
	if c.Intact && c.D.Kind == "bolt" {
		os.Remove(path)
		copyFile(valid, path)
		if idx, _, err := openIdx(path, c.Preload, -1); err == nil {
			idx.Close()
		} else {
			infra("intact file does not open: %v", err)
		}
		st, _ := os.Stat(path)
		damageInPlace(path, c.D)
		if st != nil {
			os.Chtimes(path, st.ModTime(), st.ModTime())
		}
		rep.Count("intact-first")
	} else {
		makeDamaged(valid, path, c.D)
	}
	defer os.Remove(path)
	if c.Procs > 0 {
		old := runtime.GOMAXPROCS(c.Procs)
		procsPinned.Store(true)
		defer procsPinned.Store(false)
		defer runtime.GOMAXPROCS(old)
		rep.Count(fmt.Sprintf("gomaxprocs=%d", c.Procs))
	}
	if c.D.Kind == "bolt" && c.D.Bucket && c.D.V != "good" {
		if keys, err := dumpKeys(valid); err == nil && strings.HasSuffix(keys, " n=0") {
			rep.Count("no-value-to-damage")
			return // the valid file holds no bitmap at all: this damage does not exist for it
		}
	}
	want := o.Ask(fmt.Sprintf("fs open %s preload=%v", c.D.String(), c.Preload))
	rep.Eval(fmt.Sprintf("%v", *c), c.D.Kind != "bolt" || !c.D.Bucket || c.D.S != "good" || c.D.I != "good" || c.D.V != "good")
	rep.Count("expect=" + want)
	viol := func(kind, sig, what, exp, act string) {
		rep.Violate(Violation{Kind: kind, Signature: sig, What: what + " [" + c.D.String() + fmt.Sprintf(" preload=%v cache=%v]", c.Preload, c.Cache), Expected: exp, Actual: act, Case: c})
	}
	got, idx := openClass(path, c.Preload, c.Cache)
	if got != want {
		sig := "C15:open-outcome"
		if got == "panic" || got == "hang" {
			sig = "C15:open-" + got
		}
		viol("input", sig, "OpenIndex outcome differs from the model", want, got)
		if got == "hang" {
			return
		}
	}
	if c.D.Kind == "absent" {
		if _, err := os.Stat(path); err == nil {
			viol("input", "C15:created-missing-file", "opening a non-existent path created it", "absent", "exists")
		}
		return
	}
	switch {
	case idx == nil:
		// failed open: the file must be released at once, and a second attempt behaves the same
		if s := releasedProbe(path); s != "released" {
			viol("fault", "C15:not-released-after-failed-open", "file still locked after OpenIndex failed", "released", s)
			return
		}
		if c.D.Kind != "bolt" {
			return // the probe above (a read-write bbolt.Open) may have initialised an empty file
		}
		got2, idx2 := openClass(path, c.Preload, c.Cache)
		if idx2 != nil {
			idx2.Close()
		}
		if got2 != want {
			viol("history", "C15:second-open-differs", "second OpenIndex after a failed one", want, got2)
		}
	default:
		s := watchdog(10*time.Second, func() string {
			if err := idx.Close(); err != nil {
				return "err: " + err.Error()
			}
			if c.Seq == "open-close-close-open" {
				if err := idx.Close(); err != nil {
					return "second close err: " + err.Error()
				}
				if err := idx.Close(); err != nil {
					return "third close err: " + err.Error()
				}
			}
			return "ok"
		})
		if s != "ok" {
			viol("history", "C15:close-failed", "Close (twice)", "ok", s)
		}
		if s := releasedProbe(path); s != "released" {
			viol("history", "C15:not-released-after-close", "file still locked after Close", "released", s)
			return
		}
		got2, idx2 := openClass(path, c.Preload, c.Cache)
		if idx2 != nil {
			idx2.Close()
		}
		if got2 != "ok" {
			viol("history", "C15:reopen-after-close-failed", "OpenIndex after Close", "ok", got2)
		}
	}
}

func allDamages() []Damage {
	ds := []Damage{{Kind: "absent"}, {Kind: "garbage"}, {Kind: "empty"}, {Kind: "bolt", Bucket: false, S: "good", I: "good", V: "good"}}
	for _, s := range []string{"good", "missing", "bad"} {
		for _, i := range []string{"good", "missing", "short", "long"} {
			for _, v := range []string{"good", "bad", "missing", "empty", "half", "emptyroaring"} {
				ds = append(ds, Damage{Kind: "bolt", Bucket: true, S: s, I: i, V: v})
			}
		}
	}
	return ds
}

func runC15(rep *Report, r *Rng, tier string) {
	rep.Rule = "file states derived from a valid index: absent, arbitrary bytes, empty file, bolt file without data bucket, and every combination of S in {good,missing,undecodable} x I in {good,missing,2 bytes,5 bytes} x one V entry in {good,undecodable,removed}; x {on-demand, preloaded} x {cache, no cache} x sequences {open/fail/open, open/close/close/open}; OpenIndex under a watchdog compared with the model's openIndex (ok/error, never panic/hang); after failure and after Close an exclusive bbolt.Open must succeed within 1.5 s; non-trivial = damaged state; exhaustive over this grid"
	o := StartOracle()
	defer o.Close()
	nfiles := 1
	if tier == "thorough" {
		nfiles = 4
	}
	for f := 0; f < nfiles; f++ {
		d := genDataSpecN(r, 20+r.Intn(200), false)
		for try := 0; try < 20 && statsOf(d.Materialize()).pairs == 0; try++ {
			// the damage grid needs at least one stored bitmap to damage: a dataset whose rows are all empty has none
			d = genDataSpecN(r, 20+r.Intn(200), false)
		}
		valid := scratch(fmt.Sprintf("valid-%d.updog", f))
		os.Remove(valid)
		if _, err := buildIndexFile(Pick(r, writers), d.Materialize(), valid); err != nil {
			infra("build: %v", err)
		}
		for _, dm := range allDamages() {
			for _, pre := range []bool{false, true} {
				for ci, cache := range []bool{false, true} {
					seq := "open-open"
					if ci == 1 {
						seq = "open-close-close-open"
					}
					c := &OpenCase{D: dm, Preload: pre, Cache: cache, Seq: seq}
					if rep.Evaluations < 2 {
						rep.Sample(c)
					}
					runOpenCase(o, valid, c, rep)
					if dm.Kind == "bolt" && ci == 0 {
						// the same state reached after this process has opened the intact file under the same path, with
						// size and modification time preserved; and under other GOMAXPROCS settings
						c2 := *c
						c2.Intact = true
						c2.Procs = []int{0, 1, 3}[(len(dm.S)+len(dm.I)+len(dm.V))%3]
						runOpenCase(o, valid, &c2, rep)
					}
				}
			}
		}
		os.Remove(valid)
	}
	// a file with a few thousand values, one of the first undecodable: preloading under every GOMAXPROCS setting
	{
		d := &DataSpec{Seed: r.U64(), NRows: 3000, Cols: []ColSpec{{Name: hx("u"), NVals: 3000, Dist: "unique", Style: "ascii"}, {Name: hx("a"), NVals: 3, Dist: "random", Style: "ascii"}}}
		valid := scratch("valid-many.updog")
		os.Remove(valid)
		if _, err := buildIndexFile("mem", d.Materialize(), valid); err != nil {
			infra("build: %v", err)
		}
		for _, v := range []string{"bad", "half", "good"} {
			for _, procs := range []int{1, 2, 3, 16} {
				c := &OpenCase{D: Damage{Kind: "bolt", Bucket: true, S: "good", I: "good", V: v}, Preload: true, Seq: "open-open", Procs: procs}
				runOpenCase(o, valid, c, rep)
			}
		}
		os.Remove(valid)
	}
	// how the path is reached and who reaches it does not matter for a readable index: through a symbolic link, and
	// (when the harness runs as root) as a user that can read the file but does not own it
	{
		pub, err := os.MkdirTemp("", "updog-verif-pub-")
		if err != nil {
			infra("mkdtemp: %v", err)
		}
		defer os.RemoveAll(pub)
		os.Chmod(pub, 0755)
		valid := filepath.Join(pub, "gen-0001.updog")
		if _, err := buildIndexFile("mem", genDataSpecN(r, 50, false).Materialize(), valid); err != nil {
			infra("build: %v", err)
		}
		os.Chmod(valid, 0644)
		link := filepath.Join(pub, "current.updog")
		os.Symlink("gen-0001.updog", link)
		for _, pre := range []bool{false, true} {
			got, idx := openClass(link, pre, false)
			if idx != nil {
				idx.Close()
			}
			rep.Eval(fmt.Sprintf("symlink-open-%v", pre), true)
			if got != "ok" {
				rep.Violate(Violation{Kind: "input", Signature: "C15:open-outcome", What: fmt.Sprintf("a valid index named through a symbolic link (preload=%v)", pre), Expected: "ok", Actual: got, Case: map[string]any{"via": "symlink", "preload": pre}})
			}
			if os.Geteuid() == 0 {
				res := make(chan string, 1)
				go func() {
					runtime.LockOSThread() // never unlocked: the thread with the changed fsuid dies with this goroutine
					if err := syscall.Setfsuid(65534); err != nil {
						res <- "skip"
						return
					}
					f, err := os.Open(valid)
					if err != nil {
						res <- "skip" // the file is not readable for that user on this system: nothing to learn
						return
					}
					f.Close()
					var opts []updog.IndexOption
					if pre {
						opts = append(opts, updog.WithPreloadedData())
					}
					idx, err := updog.OpenIndex(valid, opts...)
					if err != nil {
						res <- "err: " + err.Error()
						return
					}
					idx.Close()
					res <- "ok"
				}()
				var got string
				select {
				case got = <-res:
				case <-time.After(20 * time.Second * watchdogScale):
					got = "hang"
				}
				if got != "skip" {
					rep.Eval(fmt.Sprintf("other-user-open-%v", pre), true)
					rep.Count("opened-as-non-owner")
					if got != "ok" {
						rep.Violate(Violation{Kind: "input", Signature: "C15:open-outcome", What: fmt.Sprintf("a valid index that the opening user can read but does not own (preload=%v)", pre), Expected: "ok", Actual: got, Case: map[string]any{"via": "non-owner", "preload": pre}})
					}
				}
			}
		}
	}
	// the file is released by Close (and by a failed open) even when the process has started a child in the meantime
	// (a descriptor without close-on-exec would live on in the child, with its lock), and Close does not return before
	// the file is released when a query is still running on the index
	{
		valid := scratch("valid-release.updog")
		os.Remove(valid)
		if _, err := buildIndexFile("mem", genDataSpecN(r, 40, false).Materialize(), valid); err != nil {
			infra("build: %v", err)
		}
		for _, mode := range []string{"close", "failed-open"} {
			path := scratch("release-" + mode + ".updog")
			if mode == "close" {
				copyFile(valid, path)
			} else {
				makeDamaged(valid, path, Damage{Kind: "bolt", Bucket: true, S: "missing", I: "good", V: "good"})
			}
			idx, _, err := openIdx(path, false, -1)
			child := exec.Command("sleep", "4")
			if cerr := child.Start(); cerr == nil {
				if idx != nil {
					idx.Close()
				}
				s := releasedProbe(path)
				child.Process.Kill()
				child.Wait()
				rep.Eval("release-with-child-"+mode, true)
				rep.Count("release-with-child-process")
				if s != "released" && (mode == "close" || err != nil) {
					rep.Violate(Violation{Kind: "history", Signature: "C15:not-released-after-" + map[string]string{"close": "close", "failed-open": "failed-open"}[mode], What: "the process started a child while the index file was open (" + mode + "); afterwards the file is still locked", Expected: "released", Actual: s, Case: map[string]any{"scenario": "child process started while open", "mode": mode}})
				}
			} else if idx != nil {
				idx.Close()
			}
			os.Remove(path)
		}
		// Close while a query is in flight (held inside a caller-supplied cache): when Close has returned, the file is free
		path := scratch("release-inflight.updog")
		copyFile(valid, path)
		gate := &gateCache{hold: make(chan struct{}), entered: make(chan struct{}, 1)}
		idx, err := updog.OpenIndex(path, updog.WithCache(gate))
		if err == nil {
			rows := genDataSpecN(r, 40, false).Materialize()
			_ = rows
			sch := idx.GetSchema()
			if len(sch.Columns) > 0 && len(sch.Columns[0].Values) > 0 {
				q := &updog.Query{Expr: &updog.ExprEqual{Column: sch.Columns[0].Name, Value: sch.Columns[0].Values[0].Value}}
				qdone := make(chan struct{})
				go func() { defer close(qdone); safeExecute(idx, q) }()
				select {
				case <-gate.entered:
				case <-time.After(5 * time.Second):
				}
				closed := make(chan struct{})
				go func() { defer close(closed); idx.Close() }()
				res, s := "ok", ""
				select {
				case <-closed:
					// Close returned although the query is still being held: then the file must be free NOW
					s = releasedProbe(path)
					close(gate.hold)
				case <-time.After(300 * time.Millisecond):
					close(gate.hold) // Close waits for the query: let it finish
					select {
					case <-closed:
					case <-time.After(20 * time.Second * watchdogScale):
						res = "hang"
					}
				}
				<-qdone
				if s == "" {
					s = releasedProbe(path)
				}
				rep.Eval("release-inflight", true)
				rep.Count("close-with-query-in-flight")
				if res != "ok" || s != "released" {
					rep.Violate(Violation{Kind: "schedule", Signature: "C15:not-released-after-close", What: "Close was called while a query was running on the index; Close returned (" + res + ") and the file is " + s, Expected: "released", Actual: s, Case: map[string]any{"scenario": "close with a query in flight"}})
				}
			} else {
				idx.Close()
			}
		}
		os.Remove(path)
		os.Remove(valid)
	}
	// options whose argument is nil cannot fail: the open succeeds, Close releases the file
	{
		valid := scratch("valid-nilopts.updog")
		os.Remove(valid)
		buildIndexFile("mem", genDataSpecN(r, 30, false).Materialize(), valid)
		for name, opt := range map[string]updog.IndexOption{"WithCache(nil)": updog.WithCache(nil), "WithIndexMetrics(nil)": updog.WithIndexMetrics(nil)} {
			res := watchdog(20*time.Second, func() string {
				idx, err := updog.OpenIndex(valid, opt)
				if err != nil {
					return "err: " + err.Error()
				}
				idx.Close()
				return "ok"
			})
			rep.Eval("nilopt-"+name, true)
			if res != "ok" && !strings.HasPrefix(res, "err") {
				rep.Violate(Violation{Kind: "input", Signature: "C15:open-" + strings.SplitN(res, ":", 2)[0], What: "OpenIndex with " + name, Expected: "ok or error", Actual: res, Case: map[string]any{"option": name}})
			}
			if s := releasedProbe(valid); s != "released" {
				rep.Violate(Violation{Kind: "fault", Signature: "C15:not-released-after-failed-open", What: "file still locked after OpenIndex with " + name + " (" + res + ")", Expected: "released", Actual: s, Case: map[string]any{"option": name}})
			}
		}
		os.Remove(valid)
	}
	rep.Note("exhaustive over %d file states x 2 getters x 2 cache settings", len(allDamages()))
	rep.OracleCalls = o.n
}

// ---------- C06 ----------

type CrashCase struct {
	Poll   bool      `json:"poll,omitempty"` // also copy the output at arbitrary instants
	Data   *DataSpec `json:"data"`
	Writer string    `json:"writer"`
	Point  int       `json:"point"` // commit point index (for replay: checked again for all points)
}

func probeBattery(rows []map[string]string, r *Rng) []QCase {
	pool := poolOf(rows)
	st := statsOf(rows)
	small := func(gb []string) []string { // group-by only over columns with few values: a probe must stay cheap
		var out []string
		for _, g := range gb {
			if st.distinct[unhx(g)] <= 200 || (st.distinct[unhx(g)] <= 3000 && len(rows) <= 6000) {
				out = append(out, g)
			}
		}
		return out
	}
	var qs []QCase
	for i := 0; i < 10; i++ {
		gb := genGroupBy(r, pool, false)
		if len(gb) > 2 {
			gb = gb[:2]
		}
		qs = append(qs, QCase{E: genExpr(r, pool, 1+r.Intn(2), false), GB: small(gb)})
	}
	// one probe per column over all its (sampled) values, so that a missing bitmap shows
	for ci, c := range pool.cols {
		e := &Ex{Op: "O"}
		vals := pool.vals[ci]
		if st.distinct[c] > len(vals) { // many values: sample evenly over the whole row range, not just the first rows
			seen := map[string]bool{}
			vals = nil
			for k := 0; k < 96; k++ {
				if v, ok := rows[k*len(rows)/96][c]; ok && !seen[v] {
					seen[v] = true
					vals = append(vals, v)
				}
			}
		}
		for _, v := range vals {
			e.Kids = append(e.Kids, &Ex{Op: "E", C: hx(c), V: hx(v)})
		}
		if len(e.Kids) == 0 {
			continue
		}
		qs = append(qs, QCase{E: e, GB: small([]string{hx(c)})})
	}
	return qs
}

func runCrashCase(o *Oracle, c *CrashCase, rep *Report) {
	rows := c.Data.Materialize()
	path := scratch("crash-out.updog")
	os.Remove(path)
	defer os.Remove(path)
	var snaps []string
	var sites []string
	n := 0
	updog.VerifSetCommitHook(func(site string) {
		if strings.HasPrefix(site, "big.temp") {
			// a commit to the temporary database: the output file is unchanged; snapshot it anyway (sparsely)
			if n%5 != 0 {
				n++
				return
			}
		}
		s := scratch(fmt.Sprintf("snap-%d.updog", n))
		n++
		if _, err := os.Stat(path); err != nil {
			sites = append(sites, site+"(absent)")
			snaps = append(snaps, "")
			return
		}
		copyFile(path, s)
		snaps = append(snaps, s)
		sites = append(sites, site)
	})
	// crash point 0: the output file exists (bbolt initialised it) but nothing was committed
	if c.Writer == "big" || c.Writer == "memdb" {
		// these paths get an opened *bbolt.DB from the caller: snapshot right after bbolt.Open
		db, err := bbolt.Open(path, 0644, boltOpts)
		if err == nil {
			db.Close()
			s := scratch("snap-init.updog")
			copyFile(path, s)
			snaps = append(snaps, s)
			sites = append(sites, "after-bbolt-open")
			os.Remove(path)
		}
	}
	// besides the commit hooks: copy the output path at arbitrary instants while the writer runs (what a SIGKILL at
	// that instant would leave behind, up to pages in flight)
	stopPoll := make(chan struct{})
	pollDone := make(chan struct{})
	var polled []string
	if c.Poll {
		go func() {
			defer close(pollDone)
			last := int64(-1)
			for k := 0; ; k++ {
				select {
				case <-stopPoll:
					return
				default:
				}
				if st, err := os.Stat(path); err == nil && (st.Size() != last || k%50 == 0) && len(polled) < 60 {
					last = st.Size()
					s := scratch(fmt.Sprintf("poll-%d.updog", len(polled)))
					if data, err := os.ReadFile(path); err == nil {
						os.WriteFile(s, data, 0644)
						polled = append(polled, s)
					}
				}
				time.Sleep(200 * time.Microsecond)
			}
		}()
	} else {
		close(pollDone)
	}
	_, err := buildIndexFile(c.Writer, rows, path)
	close(stopPoll)
	<-pollDone
	updog.VerifSetCommitHook(nil)
	for _, s := range polled {
		// insert before the final snapshot so that "last" stays the complete file
		snaps = append(snaps[:len(snaps)-1], append([]string{s}, snaps[len(snaps)-1:]...)...)
		sites = append(sites[:len(sites)-1], append([]string{"polled"}, sites[len(sites)-1:]...)...)
	}
	rep.CountN("polled-snapshots", len(polled))
	if err != nil {
		infra("build: %v", err)
	}
	defer func() {
		for _, s := range snaps {
			if s != "" {
				os.Remove(s)
			}
		}
	}()
	// reference answers from the complete index
	full, _, err := openIdx(path, false, -1)
	if err != nil {
		rep.Violate(Violation{Kind: "input", Signature: "C06:complete-index-rejected", What: "the completely written index does not open: " + err.Error(), Expected: "opens", Actual: err.Error(), Case: c})
		return
	}
	probes := probeBattery(rows, NewRng(c.Data.Seed))
	var ref []string
	for i := range probes {
		ref = append(ref, safeExecute(full, toQuery(&probes[i])))
	}
	refSchema := schemaString(full.GetSchema())
	full.Close()
	rep.Count("writer=" + c.Writer)
	for si, s := range snaps {
		if s == "" {
			rep.Eval(fmt.Sprintf("%d|%s|%d", c.Data.Seed, c.Writer, si), false)
			rep.Count("snapshot-absent")
			continue
		}
		last := si == len(snaps)-1
		keys, kerr := dumpKeys(s)
		state := "bucket=false"
		if kerr == nil {
			state = "bucket=true " + keys
		}
		for _, pre := range []bool{false, true} {
			got, idx := openClass(s, pre, false)
			rep.Eval(fmt.Sprintf("%d|%s|%d|%v", c.Data.Seed, c.Writer, si, pre), !last)
			switch got {
			case "panic", "hang":
				rep.Violate(Violation{Kind: "crash-prefix", Signature: "C06:open-" + got, What: fmt.Sprintf("OpenIndex %ss on the file as of commit point %d/%d (%s)", got, si, len(snaps)-1, sites[si]), Expected: "error or complete index", Actual: got, Case: &CrashCase{Data: c.Data, Writer: c.Writer, Point: si}})
			case "err":
				rep.Count("prefix-rejected")
				if last {
					rep.Violate(Violation{Kind: "crash-prefix", Signature: "C06:final-rejected", What: "file after the last commit is rejected", Expected: "opens", Actual: "err", Case: c})
				}
			case "ok":
				rep.Count("prefix-accepted")
				bad := ""
				if sc := schemaString(idx.GetSchema()); sc != refSchema {
					bad = "schema differs"
				}
				for i := range probes {
					if a := safeExecute(idx, toQuery(&probes[i])); a != ref[i] && bad == "" {
						bad = fmt.Sprintf("probe %s answers %s instead of %s", probes[i].Toks(), trunc(a, 80), trunc(ref[i], 80))
					}
				}
				idx.Close()
				if bad != "" {
					rep.Violate(Violation{Kind: "crash-prefix", Signature: "C06:partial-file-accepted", What: fmt.Sprintf("the file as of commit point %d of %d (%s) opens as an index but %s", si, len(snaps)-1, sites[si], bad), Expected: "rejected, or answers identical to the complete index", Actual: bad, Case: &CrashCase{Data: c.Data, Writer: c.Writer, Point: si}})
				}
			}
			// internal tie: the model's openIndex on this key set agrees on accept/reject
			if want := o.Ask("fs openkeys " + strings.Fields(state)[0] + " " + keyPresence(keys)); want != got && (got == "ok" || got == "err") {
				rep.Violate(Violation{Kind: "obligation", Signature: "C06:open-differs-from-model", What: fmt.Sprintf("OpenIndex on snapshot %d (%s): implementation %s, model %s", si, keyPresence(keys), got, want), Expected: want, Actual: got, Case: c})
			}
		}
	}
	rep.CountN("commit-points", len(snaps))
}

// "ok I=<n|?> n=<k> keys..." -> "I=<good|missing> S=<...>": dumpKeys does not list S, so look at it separately
func keyPresence(keys string) string {
	i := "I=good"
	if strings.Contains(keys, "I=?") || keys == "" {
		i = "I=missing"
	}
	return i
}

func runC06(rep *Report, r *Rng, tier string) {
	defer killedDuringFlush(rep, "C06")
	defer func() {
		for _, big := range []bool{false, true} {
			for _, sig := range []syscall.Signal{syscall.SIGTERM, syscall.SIGINT} {
				terminatedCreate(rep, "C06", big, sig)
			}
			terminatedCreateX(rep, "C06", big, syscall.SIGINT, true)
			terminatedCreateX(rep, "C06", big, 0, false)
		}
	}()
	rep.Rule = "every transaction-commit point (verifPoint hook) of Flush/WriteToBoltDatabase of the in-memory writer and of AddRow+Flush of the big writer, incl. the state before the first commit, for datasets on both sides of 1000/2000 distinct values and 1000/2000 rows: the output file is copied at each point; each copy must be rejected by OpenIndex or answer a probe battery (random queries + one OR-over-all-values group-by probe per column + schema) exactly like the complete file; both getters; non-trivial = strict prefix; distinct by (dataset, writer, point, getter)"
	o := StartOracle()
	defer o.Close()
	type shape struct{ rows, vals int }
	shapes := []shape{{30, 5}, {1200, 40}, {2500, 2300}, {1001, 1001}, {6500, 6200}}
	if tier == "thorough" {
		shapes = append(shapes, shape{999, 999}, shape{1000, 1000}, shape{3001, 3100}, shape{2000, 1999}, shape{5000, 4200}, shape{10, 1})
	}
	for si, sh := range shapes {
		for _, w := range writers {
			d := genDataSpecN(r, sh.rows, false)
			d.Cols = append(d.Cols, ColSpec{Name: hx("many"), NVals: sh.vals, Dist: "random", Style: "ascii"})
			if sh.vals >= sh.rows {
				d.Cols[len(d.Cols)-1].Dist = "unique"
			}
			c := &CrashCase{Data: d, Writer: w}
			if si == 1 && w == "mem" {
				rep.Sample(c)
			}
			runCrashCase(o, c, rep)
		}
	}
	// a large bitmap volume (well over 64 KiB) written by the in-memory writer, observed at arbitrary instants
	{
		n := 12000
		if tier == "thorough" {
			n = 60000
		}
		d := &DataSpec{Seed: r.U64(), NRows: n, Cols: []ColSpec{{Name: hx("uid"), NVals: 1, Dist: "unique", Style: "ascii"}, {Name: hx("g"), NVals: 7, Dist: "random", Style: "ascii"}}}
		runCrashCase(o, &CrashCase{Data: d, Writer: "mem", Poll: true}, rep)
		rep.Count("polled-cases")
	}
	// second Flush of the same writer onto its own output, after more rows were added: either it is refused and the
	// first complete index stays, or every commit point of the second Flush leaves a file that is rejected or answers
	// like one of the two complete indexes
	{
		path := scratch("reflush.updog")
		os.Remove(path)
		w := updog.NewIndexWriter(path)
		rowsA := (&DataSpec{Seed: r.U64(), NRows: 1500, Cols: []ColSpec{{Name: hx("u"), NVals: 1, Dist: "unique", Style: "ascii"}, {Name: hx("g"), NVals: 5, Dist: "random", Style: "ascii"}}}).Materialize()
		for _, rw := range rowsA {
			w.AddRow(rw)
		}
		if err := w.Flush(); err != nil {
			infra("flush: %v", err)
		}
		probes := []QCase{{E: &Ex{Op: "N", Kids: []*Ex{{Op: "E", C: hx("g"), V: hx("0")}}}, GB: []string{hx("g")}}, {E: &Ex{Op: "E", C: hx("u"), V: hx("1499")}}, {E: &Ex{Op: "E", C: hx("u"), V: hx("2999")}}, {E: &Ex{Op: "E", C: hx("u"), V: hx("2000")}, GB: []string{hx("g")}}}
		answers := func(p string) string {
			idx, _, err := openIdx(p, false, -1)
			if err != nil {
				return "rejected"
			}
			defer idx.Close()
			var parts []string
			for i := range probes {
				parts = append(parts, safeExecute(idx, toQuery(&probes[i])))
			}
			return strings.Join(parts, " / ") + " / " + schemaString(idx.GetSchema())[:40]
		}
		first := answers(path)
		for i := 1500; i < 3000; i++ {
			w.AddRow(map[string]string{"u": fmt.Sprint(i), "g": fmt.Sprint(i % 5)})
		}
		var snaps []string
		updog.VerifSetCommitHook(func(site string) {
			s := scratch(fmt.Sprintf("reflush-snap-%d.updog", len(snaps)))
			copyFile(path, s)
			snaps = append(snaps, s)
		})
		err2 := w.Flush()
		updog.VerifSetCommitHook(nil)
		final := answers(path)
		rep.Eval("reflush", true)
		rep.Count("second-flush-cases")
		if err2 != nil && final != first {
			rep.Violate(Violation{Kind: "crash-prefix", Signature: "C06:partial-file-accepted", What: "a refused second Flush changed what the output answers", Expected: trunc(first, 200), Actual: trunc(final, 200), Case: map[string]any{"reflush": true}})
		}
		for si, s := range snaps {
			a := answers(s)
			if a != "rejected" && a != first && a != final {
				rep.Violate(Violation{Kind: "crash-prefix", Signature: "C06:partial-file-accepted", What: fmt.Sprintf("the file as of commit point %d of a second Flush of the same writer opens as an index but answers like neither complete index", si), Expected: "rejected, or " + trunc(first, 120) + ", or " + trunc(final, 120), Actual: trunc(a, 200), Case: map[string]any{"reflush": true, "point": si}})
				break
			}
			os.Remove(s)
		}
		os.Remove(path)
	}
	if tier == "thorough" {
		runKillCreate(rep, r)
	}
	rep.OracleCalls = o.n
}

// SIGKILL of the real `updog create` at random instants; afterwards the output is absent, rejected or complete.
func runKillCreate(rep *Report, r *Rng) {
	for _, big := range []bool{false, true} {
		d := genDataSpecN(r, 4000, true)
		d.Cols = append(d.Cols, ColSpec{Name: hx("many"), NVals: 3000, Dist: "random", Style: "ascii"})
		rows := d.Materialize()
		csvPath := scratch("kill.csv")
		writeCSV(csvPath, rows)
		// reference
		ref := scratch("kill-ref.updog")
		os.Remove(ref)
		if out, err := runCreate(csvPath, ref, big, 120*time.Second); err != nil {
			infra("reference create failed: %v %s", err, out)
		}
		fullIdx, _, err := openIdx(ref, false, -1)
		if err != nil {
			infra("open ref: %v", err)
		}
		hdrRows := csvRowsAsMaps(rows)
		probes := probeBattery(hdrRows, NewRng(d.Seed))
		var refAns []string
		for i := range probes {
			refAns = append(refAns, safeExecute(fullIdx, toQuery(&probes[i])))
		}
		fullIdx.Close()
		for k := 0; k < 40; k++ {
			out := scratch("kill-out.updog")
			os.Remove(out)
			args := []string{"create", "-o", out, csvPath}
			if big {
				args = []string{"create", "-b", "-o", out, csvPath}
			}
			cmd := exec.Command(updogBin, args...)
			tmpdir := scratchDir
			if k%2 == 1 {
				if d, err := os.MkdirTemp("/dev/shm", "updog-verif-"); err == nil { // another file system than the output
					tmpdir = d
					defer os.RemoveAll(d)
				}
			}
			cmd.Env = append(os.Environ(), "TMPDIR="+tmpdir)
			if err := cmd.Start(); err != nil {
				infra("start create: %v", err)
			}
			time.Sleep(time.Duration(r.Intn(400)) * time.Millisecond)
			cmd.Process.Kill()
			cmd.Wait()
			rep.Count(fmt.Sprintf("sigkill big=%v", big))
			if _, err := os.Stat(out); err != nil {
				rep.Count("sigkill-output-absent")
				continue
			}
			got, idx := openClass(out, false, false)
			rep.Eval(fmt.Sprintf("kill|%v|%d", big, k), true)
			switch got {
			case "err":
				rep.Count("sigkill-output-rejected")
			case "ok":
				rep.Count("sigkill-output-accepted")
				for i := range probes {
					if a := safeExecute(idx, toQuery(&probes[i])); a != refAns[i] {
						rep.Violate(Violation{Kind: "crash-prefix", Signature: "C06:partial-file-accepted", What: fmt.Sprintf("after SIGKILL of updog create (big=%v) the output opens but probe %s answers differently", big, probes[i].Toks()), Expected: trunc(refAns[i], 200), Actual: trunc(a, 200), Case: map[string]any{"big": big, "kill": k}})
						break
					}
				}
				idx.Close()
			default:
				rep.Violate(Violation{Kind: "crash-prefix", Signature: "C06:open-" + got, What: fmt.Sprintf("OpenIndex %ss on the output of a killed updog create (big=%v)", got, big), Expected: "error or complete", Actual: got, Case: map[string]any{"big": big, "kill": k}})
			}
			os.Remove(out)
		}
		os.Remove(ref)
	}
}

// ---------- C16 ----------

type ClobberCase struct {
	Big    bool   `json:"big,omitempty"` // the in-process writer holds >= 65536 distinct values
	Pre    string `json:"pre"`           // empty | index | garbage | readonly | foreignbolt
	Writer string `json:"writer"`        // mem | create | create-big
}

func runClobberCase(valid, csvPath string, c *ClobberCase, rep *Report) {
	path := scratch("existing.updog")
	os.Chmod(path, 0644)
	os.Remove(path)
	switch c.Pre {
	case "empty":
		os.WriteFile(path, nil, 0644)
	case "index":
		copyFile(valid, path)
	case "garbage":
		os.WriteFile(path, []byte("precious user data\n"), 0644)
	case "readonly":
		copyFile(valid, path)
		os.Chmod(path, 0444)
	case "foreignbolt": // somebody else's bbolt database: valid, but not an updog index
		db, err := bbolt.Open(path, 0644, boltOpts)
		if err == nil {
			db.Update(func(tx *bbolt.Tx) error {
				b, _ := tx.CreateBucketIfNotExists([]byte("precious"))
				return b.Put([]byte("k"), []byte("v"))
			})
			db.Close()
		}
	}
	defer func() { os.Chmod(path, 0644); os.Remove(path) }()
	before := sha(path)
	var outcome string
	switch c.Writer {
	case "mem":
		outcome = watchdog(60*time.Second, func() string {
			w := updog.NewIndexWriter(path)
			w.AddRow(map[string]string{"a": "1"})
			w.AddRow(map[string]string{"a": "2", "b": "x"})
			if c.Big { // a writer holding 70000 distinct (column,value) pairs
				for i := 0; i < 70000; i++ {
					w.AddRow(map[string]string{"u": fmt.Sprint(i)})
				}
			}
			if err := w.Flush(); err != nil {
				return "err"
			}
			return "ok"
		})
	default:
		out, err := runCreate(csvPath, path, c.Writer == "create-big", 30*time.Second)
		switch {
		case err == nil:
			outcome = "ok"
		case strings.Contains(err.Error(), "timeout"):
			outcome = "hang"
		default:
			outcome = "err"
		}
		_ = out
	}
	after := sha(path)
	rep.Eval(fmt.Sprintf("%v", *c), true)
	if c.Writer == "mem" && c.Pre == "index" {
		// a writer whose first Flush succeeded: a second Flush finds its own output and must leave it alone
		p2 := scratch("flushtwice.updog")
		os.Remove(p2)
		w := updog.NewIndexWriter(p2)
		w.AddRow(map[string]string{"a": "1"})
		if err := w.Flush(); err == nil {
			b4 := sha(p2)
			err2 := w.Flush()
			if err2 == nil || sha(p2) != b4 {
				rep.Violate(Violation{Kind: "history", Signature: "C16:existing-file-modified", What: fmt.Sprintf("second Flush of the same writer onto its own output: returned %v, file %s", err2, map[bool]string{true: "unchanged", false: "changed or removed"}[sha(p2) == b4]), Expected: "error, file unchanged", Actual: sha(p2), Case: c})
			}
		}
		os.Remove(p2)
		rep.Count("flush-twice")
	}
	if outcome != "err" {
		rep.Violate(Violation{Kind: "input", Signature: "C16:flush-on-existing-" + outcome, What: fmt.Sprintf("writer %s on an existing %s file", c.Writer, c.Pre), Expected: "err", Actual: outcome, Case: c})
	}
	if before != after {
		rep.Violate(Violation{Kind: "input", Signature: "C16:existing-file-modified", What: fmt.Sprintf("writer %s changed an existing %s file", c.Writer, c.Pre), Expected: before, Actual: after, Case: c})
	}
}

func runSymlinkClobber(csvPath, kind, writer string, rep *Report) {
	base := scratch("c16-links")
	os.RemoveAll(base)
	defer os.RemoveAll(base)
	os.MkdirAll(filepath.Join(base, "store", "deep"), 0755)
	os.MkdirAll(filepath.Join(base, "work"), 0755)
	var path string           // the name handed to the writer
	var mustNotExist []string // places a writer that resolves the name itself would create
	var precious string       // an existing file the name really refers to ("" if none)
	switch kind {
	case "danglinglink":
		path = filepath.Join(base, "work", "current.updog")
		os.Symlink(filepath.Join(base, "store", "next.updog"), path) // target does not exist
		mustNotExist = []string{filepath.Join(base, "store", "next.updog")}
	default: // dotdot: work/latest -> store/deep, so work/latest/../out.updog IS store/out.updog
		os.Symlink(filepath.Join(base, "store", "deep"), filepath.Join(base, "work", "latest"))
		precious = filepath.Join(base, "store", "out.updog")
		os.WriteFile(precious, []byte("precious user data\n"), 0644)
		path = filepath.Join(base, "work", "latest") + "/../out.updog"
		mustNotExist = []string{filepath.Join(base, "work", "out.updog")}
	}
	before := sha(precious)
	var outcome string
	if writer == "mem" {
		outcome = watchdog(60*time.Second, func() string {
			w := updog.NewIndexWriter(path)
			w.AddRow(map[string]string{"a": "1"})
			if err := w.Flush(); err != nil {
				return "err"
			}
			return "ok"
		})
	} else {
		_, err := runCreate(csvPath, path, writer == "create-big", 30*time.Second)
		switch {
		case err == nil:
			outcome = "ok"
		case strings.Contains(err.Error(), "timeout"):
			outcome = "hang"
		default:
			outcome = "err"
		}
	}
	c := map[string]any{"kind": kind, "writer": writer}
	rep.Eval(fmt.Sprintf("symlink-%s-%s", kind, writer), true)
	if outcome != "err" {
		rep.Violate(Violation{Kind: "input", Signature: "C16:flush-on-existing-" + outcome, What: fmt.Sprintf("writer %s on an output name that already exists in the file system (%s)", writer, kind), Expected: "err", Actual: outcome, Case: c})
	}
	for _, p := range mustNotExist {
		if _, err := os.Lstat(p); err == nil {
			rep.Violate(Violation{Kind: "input", Signature: "C16:existing-file-modified", What: fmt.Sprintf("writer %s given an existing name (%s) wrote an index elsewhere: %s", writer, kind, p), Expected: "nothing created", Actual: "created " + p, Case: c})
		}
	}
	if precious != "" && sha(precious) != before {
		rep.Violate(Violation{Kind: "input", Signature: "C16:existing-file-modified", What: fmt.Sprintf("writer %s changed the existing file its output name refers to (%s)", writer, kind), Expected: before, Actual: sha(precious), Case: c})
	}
	if kind == "danglinglink" {
		if fi, err := os.Lstat(path); err != nil || fi.Mode()&os.ModeSymlink == 0 {
			rep.Violate(Violation{Kind: "input", Signature: "C16:existing-file-modified", What: fmt.Sprintf("writer %s replaced the symbolic link at its output path", writer), Expected: "link unchanged", Actual: fmt.Sprint(err), Case: c})
		}
	}
}

func runC16(rep *Report, r *Rng, tier string) {
	rep.Rule = "pre-existing output files {empty, valid index, arbitrary bytes, read-only index} x writers {IndexWriter.Flush in-process, `updog create`, `updog create --big`}: Flush must fail and SHA-256 of the file must be unchanged; and read histories (open with every option set, random queries, GetSchema, Close, sql driver handles, gRPC server) on a valid index: SHA-256 and mtime unchanged; non-trivial = all; distinct by case"
	o := StartOracle()
	defer o.Close()
	d := genDataSpecN(r, 300, true)
	rows := d.Materialize()
	valid := scratch("c16-valid.updog")
	os.Remove(valid)
	if _, err := buildIndexFile("mem", rows, valid); err != nil {
		infra("build: %v", err)
	}
	csvPath := scratch("c16.csv")
	writeCSV(csvPath, rows[:min(len(rows), 20)])
	for _, pre := range []string{"empty", "index"} {
		runClobberCase(valid, csvPath, &ClobberCase{Pre: pre, Writer: "mem", Big: true}, rep)
		rep.Count("clobber-cases")
	}
	for _, pre := range []string{"empty", "index", "garbage", "readonly", "foreignbolt"} {
		for _, w := range []string{"mem", "create", "create-big"} {
			c := &ClobberCase{Pre: pre, Writer: w}
			if rep.Evaluations < 2 {
				rep.Sample(c)
			}
			runClobberCase(valid, csvPath, c, rep)
			rep.Count("clobber-cases")
		}
	}
	// the output path as the file system resolves it, not as a string: a dangling symbolic link is an existing entry
	// (O_CREAT|O_EXCL refuses it), and "dir/link/../name" names a file in the directory the link points INTO
	for _, kind := range []string{"danglinglink", "dotdot"} {
		for _, w := range []string{"mem", "create", "create-big"} {
			runSymlinkClobber(csvPath, kind, w, rep)
			rep.Count("symlink-clobber-cases")
		}
	}
	concurrentCreators(rep, "C16", 150)
	for _, big := range []bool{false, true} {
		terminatedCreateX(rep, "C16", big, syscall.SIGINT, true)
		terminatedCreateX(rep, "C16", big, syscall.SIGTERM, true)
	}
	// a competitor creates the output path WHILE Flush is running: whenever the path does not exist at a commit point,
	// another program may create it; Flush must then fail or leave that file intact (the writer must own the path
	// from the start, O_CREAT|O_EXCL, not check-then-rename)
	for k := 0; k < 3; k++ {
		path := scratch(fmt.Sprintf("c16-race-%d.updog", k))
		os.Remove(path)
		marker := []byte("created by a competitor during Flush\n")
		created := false
		updog.VerifSetCommitHook(func(site string) {
			if created {
				return
			}
			f, err := os.OpenFile(path, os.O_WRONLY|os.O_CREATE|os.O_EXCL, 0644)
			if err == nil {
				f.Write(marker)
				f.Close()
				created = true
			}
		})
		w := updog.NewIndexWriter(path)
		for i := 0; i < 1200*k+5; i++ {
			w.AddRow(map[string]string{"a": fmt.Sprint(i), "b": "x"})
		}
		ferr := w.Flush()
		updog.VerifSetCommitHook(nil)
		rep.Eval(fmt.Sprintf("competitor-%d", k), true)
		rep.Count("competitor-during-flush")
		if created {
			data, _ := os.ReadFile(path)
			if ferr == nil || !bytes.Equal(data, marker) {
				rep.Violate(Violation{Kind: "schedule", Signature: "C16:existing-file-modified", What: fmt.Sprintf("the output path did not exist at a commit point of Flush; a file created there by another program was replaced (Flush returned %v)", ferr), Expected: "Flush fails and leaves the other file unchanged", Actual: fmt.Sprintf("%d bytes now", len(data)), Case: map[string]any{"competitor": k}})
			}
		}
		os.Remove(path)
		os.Remove(path + ".tmp")
	}
	// reading never modifies
	n := 30
	if tier == "thorough" {
		n = 300
	}
	pool := poolOf(rows)
	for i := 0; i < n; i++ {
		path := scratch("c16-read.updog")
		copyFile(valid, path)
		old := time.Now().Add(-48 * time.Hour)
		os.Chtimes(path, old, old)
		before := sha(path)
		st0, _ := os.Stat(path)
		pre, cache := r.Chance(1, 2), Pick(r, []int64{-1, 0, 5000})
		what := fmt.Sprintf("library open preload=%v cache=%d", pre, cache)
		switch r.Intn(3) {
		case 0:
			idx, _, err := openIdx(path, pre, cache)
			if err != nil {
				infra("open: %v", err)
			}
			for k := 0; k < 10; k++ {
				q := QCase{E: genExpr(r, pool, 1+r.Intn(3), true), GB: genGroupBy(r, pool, true)}
				safeExecute(idx, toQuery(&q))
			}
			idx.GetSchema()
			idx.Close()
		case 1:
			what = "sql driver handle"
			if db, err := sqlOpenFile(path, Pick(r, dsnOptionSets)); err == nil {
				for k := 0; k < 5; k++ {
					q := genSqlQuery(r, pool, false)
					rowsString(db, unhx(q.Text))
				}
				db.Close()
			}
		default:
			what = "gRPC server"
			s := startServer(path, r.Chance(1, 2), r.Chance(1, 2))
			for k := 0; k < 5; k++ {
				q := QCase{E: genExpr(r, pool, 1+r.Intn(3), false), GB: genGroupBy(r, pool, false)}
				s.query(&protoReq{Queries: protoQueries(qcaseToProto(&q, 0))})
			}
			s.stop()
		}
		after := sha(path)
		st1, _ := os.Stat(path)
		rep.Eval(fmt.Sprintf("read|%d|%s", i, what), true)
		rep.Count("read-histories")
		if before != after || !st0.ModTime().Equal(st1.ModTime()) || st0.Size() != st1.Size() {
			rep.Violate(Violation{Kind: "history", Signature: "C16:read-modified-index", What: "index file changed by reading through " + what, Expected: before, Actual: after + fmt.Sprintf(" mtime %v->%v", st0.ModTime(), st1.ModTime()), Case: map[string]any{"what": what}})
		}
		os.Remove(path)
	}
	// flag algebra tie: the functions returned by openfile.OpenFile, observed through a recording wrapper
	rep.OracleCalls = o.n
}

func init() {
	runners["C15"] = runC15
	runners["C06"] = runC06
	runners["C16"] = runC16
	replayers["C06"] = func(rep *Report, b []byte) {
		var c CrashCase
		if err := json.Unmarshal(b, &c); err != nil || c.Data == nil {
			infra("bad case (SIGKILL cases are not replayable; rerun ./check C06 --tier thorough)")
		}
		o := StartOracle()
		defer o.Close()
		runCrashCase(o, &c, rep)
	}
	replayers["C15"] = func(rep *Report, b []byte) {
		var c OpenCase
		if err := json.Unmarshal(b, &c); err != nil {
			infra("bad case: %v", err)
		}
		o := StartOracle()
		defer o.Close()
		valid := scratch("valid-r.updog")
		buildIndexFile("mem", genDataSpecN(NewRng(1), 50, false).Materialize(), valid)
		runOpenCase(o, valid, &c, rep)
	}
	replayers["C16"] = func(rep *Report, b []byte) {
		var c ClobberCase
		if err := json.Unmarshal(b, &c); err != nil || c.Pre == "" {
			infra("bad case (read histories: rerun ./check C16)")
		}
		rows := genDataSpecN(NewRng(1), 50, true).Materialize()
		valid := scratch("valid-r.updog")
		buildIndexFile("mem", rows, valid)
		csvPath := scratch("r.csv")
		writeCSV(csvPath, rows[:10])
		runClobberCase(valid, csvPath, &c, rep)
	}
}

// gateCache is a caller-supplied cache whose first Get blocks until released: it holds one query in flight
type gateCache struct {
	hold    chan struct{}
	entered chan struct{}
	once    sync.Once
}

func (g *gateCache) Get(key uint64) (*roaring.Bitmap, bool) {
	g.once.Do(func() {
		select {
		case g.entered <- struct{}{}:
		default:
		}
		<-g.hold
	})
	return nil, false
}
func (g *gateCache) Put(key uint64, bm *roaring.Bitmap) {}
